package main

// E7 — the committed generated files (thorough tier). The shape rules that GEM applies to what the generator
// CAN emit are applied to what WAS emitted and committed (*_templ.go), so that a maintainer who changes the
// generator and regenerates is covered too. Files are parsed, not built or run. Stale files are not an alarm:
// only constructs that violate a sink / error-handling / ownership rule are reported.

import (
	"fmt"
	"go/ast"
	"go/parser"
	"go/token"
	"go/types"
	"os"
	"path/filepath"
	"sort"
	"strings"
)

type genFile struct {
	rel  string
	file *ast.File
	fset *token.FileSet
}

func (c *Ctx) generatedFiles() []genFile {
	var out []genFile
	_ = filepath.WalkDir(c.Repo, func(path string, d os.DirEntry, err error) error {
		if err != nil {
			return nil
		}
		if d.IsDir() {
			if d.Name() == ".git" || d.Name() == "node_modules" {
				return filepath.SkipDir
			}
			return nil
		}
		if !strings.HasSuffix(path, "_templ.go") {
			return nil
		}
		fset := token.NewFileSet()
		f, err := parser.ParseFile(fset, path, nil, parser.SkipObjectResolution)
		rel, _ := filepath.Rel(c.Repo, path)
		if err != nil {
			c.undec("E7.parse", rel, "", "committed generated file does not parse: "+err.Error())
			return nil
		}
		out = append(out, genFile{rel: rel, file: f, fset: fset})
		return nil
	})
	sort.Slice(out, func(i, j int) bool { return out[i].rel < out[j].rel })
	return out
}

// namesIn derives the emitted identifiers from one generated file.
func namesIn(f *ast.File) emittedNames {
	var n emittedNames
	ast.Inspect(f, func(x ast.Node) bool {
		switch x := x.(type) {
		case *ast.FuncLit:
			if x.Type.Results != nil && len(x.Type.Results.List) == 1 && len(x.Type.Results.List[0].Names) == 1 {
				if id, ok := x.Type.Results.List[0].Type.(*ast.Ident); ok && id.Name == "error" && n.Err == "" {
					n.Err = x.Type.Results.List[0].Names[0].Name
				}
			}
		case *ast.AssignStmt:
			if len(x.Rhs) == 1 {
				if call, ok := x.Rhs[0].(*ast.CallExpr); ok && types.ExprString(call.Fun) == "templruntime.GetBuffer" && len(x.Lhs) == 2 && n.Buf == "" {
					n.Buf = types.ExprString(x.Lhs[0])
					n.IsBuf = types.ExprString(x.Lhs[1])
				}
			}
		}
		return true
	})
	n.ok = n.Err != "" && n.Buf != ""
	return n
}

// generatedSinks: C01.R5 — every write to the output buffer in committed generated code is escaped or typed.
func generatedSinks(c *Ctx, rule string) {
	files := c.generatedFiles()
	nsink := 0
	for _, gf := range files {
		n := namesIn(gf.file)
		if !n.ok {
			continue // a file without templates (css/script only)
		}
		sk := &Skeleton{File: gf.file, Fset: gf.fset}
		bad := 0
		ast.Inspect(gf.file, func(x ast.Node) bool {
			call, ok := x.(*ast.CallExpr)
			if !ok {
				return true
			}
			se, ok := call.Fun.(*ast.SelectorExpr)
			if !ok || types.ExprString(se.X) != n.Buf {
				return true
			}
			nsink++
			if se.Sel.Name != "WriteString" || len(call.Args) != 1 {
				bad++
				c.viol(rule, gf.rel+"|"+types.ExprString(call.Fun), positionIn(gf, call.Pos()), "committed generated code writes to the output buffer with "+se.Sel.Name)
				return true
			}
			class, why := classifyBufferSinkFile(call.Args[0], gf.file, n)
			if class == "unescaped" {
				bad++
				c.viol(rule, gf.rel+"|"+normGenVars(types.ExprString(call)), positionIn(gf, call.Pos()), "committed generated code: "+why)
			}
			return true
		})
		_ = sk
		if bad == 0 {
			c.ok(rule, gf.rel, gf.rel, "every buffer write is escaped, a script call, or script content")
		}
	}
	c.count("generated_files", len(files))
	c.count("generated_buffer_writes", nsink)
	if len(files) < 20 {
		c.viol(rule, "anchor-lost:committed-generated-files", "", fmt.Sprintf("only %d *_templ.go files found under the repository", len(files)))
	}
}

func positionIn(gf genFile, p token.Pos) string {
	ps := gf.fset.Position(p)
	return fmt.Sprintf("%s:%d:%d", gf.rel, ps.Line, ps.Column)
}

func normGenVars(s string) string {
	// templ_7745c5c3_Var12 → templ_7745c5c3_VarN
	var sb strings.Builder
	for i := 0; i < len(s); i++ {
		if strings.HasPrefix(s[i:], "_Var") {
			sb.WriteString("_VarN")
			i += 4
			for i < len(s) && s[i] >= '0' && s[i] <= '9' {
				i++
			}
			i--
			continue
		}
		sb.WriteByte(s[i])
	}
	return sb.String()
}

// classifyBufferSinkFile: like classifyBufferSink, on a whole generated file.
func classifyBufferSinkFile(arg ast.Expr, f *ast.File, n emittedNames) (string, string) {
	return classifyBufferSink(arg, &Skeleton{File: f}, n)
}

// generatedErrHandling: C10 — every assignment of the render error from a call is followed by the handler.
func generatedErrHandling(c *Ctx, rule string) {
	files := c.generatedFiles()
	nassign := 0
	for _, gf := range files {
		n := namesIn(gf.file)
		if !n.ok {
			continue
		}
		bad := 0
		stmtLists(gf.file, func(list []ast.Stmt) {
			for i, st := range list {
				as, ok := st.(*ast.AssignStmt)
				if !ok || len(as.Rhs) != 1 {
					continue
				}
				if _, isCall := as.Rhs[0].(*ast.CallExpr); !isCall {
					continue
				}
				assigns := false
				for _, l := range as.Lhs {
					if types.ExprString(l) == n.Err {
						assigns = true
					}
				}
				if !assigns {
					continue
				}
				nassign++
				okH := false
				if i+1 < len(list) {
					okH, _ = isErrHandler(list[i+1], n.Err)
				}
				if !okH {
					bad++
					c.viol(rule, gf.rel+"|"+normGenVars(types.ExprString(as.Rhs[0].(*ast.CallExpr).Fun)), positionIn(gf, as.Pos()), "committed generated code assigns the render error and does not check it in the next statement")
				}
			}
		})
		if bad == 0 {
			c.ok(rule, gf.rel, gf.rel, "every error assignment is followed by its handler")
		}
	}
	c.count("generated_error_assignments", nassign)
}

// generatedChildrenSlot: C13 — every committed template body reads then clears the children slot before rendering.
func generatedChildrenSlot(c *Ctx, rule string) {
	for _, gf := range c.generatedFiles() {
		n := namesIn(gf.file)
		if !n.ok {
			continue
		}
		bad := 0
		ntempl := 0
		for _, d := range gf.file.Decls {
			fd, ok := d.(*ast.FuncDecl)
			if !ok || fd.Body == nil {
				continue
			}
			// top-level template: return templruntime.GeneratedTemplate(func(...) {...})
			var lit *ast.FuncLit
			if len(fd.Body.List) == 1 {
				if ret, ok := fd.Body.List[0].(*ast.ReturnStmt); ok && len(ret.Results) == 1 {
					if call, ok := ret.Results[0].(*ast.CallExpr); ok && types.ExprString(call.Fun) == "templruntime.GeneratedTemplate" && len(call.Args) == 1 {
						lit, _ = call.Args[0].(*ast.FuncLit)
					}
				}
			}
			if lit == nil {
				continue
			}
			ntempl++
			iGet := stmtIndex(lit.Body.List, func(s ast.Stmt) bool { _, _, ok := isAssignFromCall(s, "templ.GetChildren"); return ok })
			iClr := stmtIndex(lit.Body.List, func(s ast.Stmt) bool { _, _, ok := isAssignFromCall(s, "templ.ClearChildren"); return ok })
			iOut := stmtIndex(lit.Body.List, func(s ast.Stmt) bool {
				out := false
				ast.Inspect(s, func(x ast.Node) bool {
					if fl, ok := x.(*ast.FuncLit); ok && fl != lit {
						return false
					}
					if call, ok := x.(*ast.CallExpr); ok {
						nm := types.ExprString(call.Fun)
						if nm == "templruntime.WriteString" || nm == n.Buf+".WriteString" || strings.HasSuffix(nm, ".Render") {
							out = true
						}
					}
					return true
				})
				return out
			})
			if !(iGet >= 0 && iClr > iGet && (iOut < 0 || iOut > iClr)) {
				bad++
				c.viol(rule, gf.rel+"|"+fd.Name.Name, positionIn(gf, fd.Pos()), "committed template body does not read and then clear the children slot before rendering")
			}
		}
		if bad == 0 && ntempl > 0 {
			c.ok(rule, gf.rel, gf.rel, fmt.Sprintf("%d template bodies read then clear the children slot", ntempl))
		}
	}
}

// generatedNoPackageState: C14 — committed generated files declare no package-level variables of their own.
func generatedNoPackageState(c *Ctx, rule string) {
	for _, gf := range c.generatedFiles() {
		bad := 0
		for _, d := range gf.file.Decls {
			gd, ok := d.(*ast.GenDecl)
			if !ok || gd.Tok != token.VAR {
				continue
			}
			for _, sp := range gd.Specs {
				for _, nm := range sp.(*ast.ValueSpec).Names {
					if strings.HasPrefix(nm.Name, "templ_7745c5c3_") {
						bad++
						c.viol(rule, gf.rel+"|"+nm.Name, positionIn(gf, nm.Pos()), "committed generated code declares the package-level variable "+nm.Name)
					}
				}
			}
		}
		if bad == 0 {
			c.ok(rule, gf.rel, gf.rel, "no generator-owned package-level variable")
		}
	}
}

// generatedCSSSinks: C05 — every write to the CSS builder in committed generated code is a string literal
// (constant property) or string(templ.SanitizeCSS(<literal name>, <expr>)).
func generatedCSSSinks(c *Ctx, rule string) {
	n := 0
	for _, gf := range c.generatedFiles() {
		bad := 0
		has := false
		ast.Inspect(gf.file, func(x ast.Node) bool {
			call, ok := x.(*ast.CallExpr)
			if !ok || len(call.Args) != 1 {
				return true
			}
			se, ok := call.Fun.(*ast.SelectorExpr)
			if !ok || se.Sel.Name != "WriteString" || !strings.HasSuffix(types.ExprString(se.X), "_CSSBuilder") {
				return true
			}
			has = true
			n++
			arg := ast.Unparen(call.Args[0])
			if allStringLits(arg) {
				return true
			}
			if conv, ok := arg.(*ast.CallExpr); ok && types.ExprString(conv.Fun) == "string" && len(conv.Args) == 1 {
				if sc, ok := conv.Args[0].(*ast.CallExpr); ok && types.ExprString(sc.Fun) == "templ.SanitizeCSS" && len(sc.Args) == 2 {
					if bl, ok := sc.Args[0].(*ast.BasicLit); ok && bl.Kind == token.STRING {
						return true
					}
				}
			}
			bad++
			c.viol(rule, gf.rel+"|"+normGenVars(types.ExprString(call.Fun)), positionIn(gf, call.Pos()), "committed generated code writes a dynamic value into a CSS class body without templ.SanitizeCSS: "+types.ExprString(call))
			return true
		})
		if has && bad == 0 {
			c.ok(rule, gf.rel, gf.rel, "every CSS builder write is a literal or sanitised")
		}
	}
	c.count("generated_css_builder_writes", n)
}
