package main

import (
	"fmt"
	"go/ast"
	"go/token"
	"go/types"
	"strings"

	"golang.org/x/tools/go/packages"
)

// spareCapacity: why the slice value e (evaluated in fd) may have room behind its length — it is (or comes from, through
// locals, parameters, private fields and helpers of the package) a make with an explicit capacity, or a slice
// expression, which keeps the capacity of what it slices. "" when no such origin is found.
func spareCapacity(p *packages.Package, fd *ast.FuncDecl, e ast.Expr, depth int, seen map[types.Object]bool) string {
	info := p.TypesInfo
	if depth > 5 || e == nil {
		return ""
	}
	switch x := ast.Unparen(e).(type) {
	case *ast.SliceExpr:
		if x.Slice3 {
			return "" // x[a:b:b] states its capacity
		}
		return fmt.Sprintf("%s keeps the capacity of what it slices", types.ExprString(x))
	case *ast.CallExpr:
		if id, ok := x.Fun.(*ast.Ident); ok {
			if _, isBuiltin := info.Uses[id].(*types.Builtin); isBuiltin {
				switch id.Name {
				case "make":
					if len(x.Args) == 3 && types.ExprString(x.Args[1]) != types.ExprString(x.Args[2]) {
						return fmt.Sprintf("%s reserves capacity beyond its length", types.ExprString(x))
					}
					return ""
				case "append":
					// append(base, …): as much room as the runtime leaves — unknown, but never shared before this
					// call unless base had room
					if len(x.Args) > 0 {
						return spareCapacity(p, fd, x.Args[0], depth+1, seen)
					}
				}
				return ""
			}
		}
		fn := calleeOf(info, x)
		if fn == nil || fn.Pkg() != p.Types {
			return ""
		}
		for _, hd := range allFuncDecls(p) {
			if info.Defs[hd.Name] != types.Object(fn) || hd.Body == nil {
				continue
			}
			why := ""
			ast.Inspect(hd.Body, func(n ast.Node) bool {
				if _, isLit := n.(*ast.FuncLit); isLit {
					return false
				}
				if ret, ok := n.(*ast.ReturnStmt); ok {
					ret = explicitReturn(info, ret)
					if len(ret.Results) >= 1 && why == "" {
						why = spareCapacity(p, hd, ret.Results[0], depth+1, seen)
					}
				}
				return true
			})
			return why
		}
		return ""
	case *ast.SelectorExpr:
		if f := privateField(p, x); f != nil && !seen[f] {
			seen[f] = true
			for _, st := range fieldStoresOf(p, f) {
				if why := spareCapacity(p, st.Fn, st.Rhs, depth+1, seen); why != "" {
					return why
				}
			}
		}
		return ""
	case *ast.Ident:
		ob := info.ObjectOf(x)
		if ob == nil || seen[ob] {
			return ""
		}
		seen[ob] = true
		// a parameter: the arguments at the call sites of fd
		for i, prm := range paramObjs(info, fd) {
			if prm != ob {
				continue
			}
			fobj := info.Defs[fd.Name]
			for _, cfd := range allFuncDecls(p) {
				if cfd.Body == nil {
					continue
				}
				why := ""
				ast.Inspect(cfd.Body, func(n ast.Node) bool {
					if call, ok := n.(*ast.CallExpr); ok && i < len(call.Args) && why == "" {
						if fn := calleeOf(info, call); fn != nil && types.Object(fn) == fobj {
							why = spareCapacity(p, cfd, call.Args[i], depth+1, seen)
						}
					}
					return true
				})
				if why != "" {
					return why
				}
			}
			return ""
		}
		// a package-level variable: its initialiser
		if v, ok := ob.(*types.Var); ok && v.Parent() == p.Types.Scope() {
			return spareCapacity(p, fd, pkgVarInit(p, v.Name()), depth+1, seen)
		}
		// a local: everything assigned to it (x = append(x, …) adds nothing new)
		why := ""
		ast.Inspect(fd.Body, func(n ast.Node) bool {
			switch st := n.(type) {
			case *ast.AssignStmt:
				for i, l := range st.Lhs {
					if lid, ok := l.(*ast.Ident); ok && info.ObjectOf(lid) == ob && why == "" {
						var rhs ast.Expr
						if len(st.Lhs) == len(st.Rhs) {
							rhs = st.Rhs[i]
						} else if len(st.Rhs) == 1 {
							rhs = st.Rhs[0]
						}
						if call, ok := ast.Unparen(rhs).(*ast.CallExpr); ok && types.ExprString(call.Fun) == "append" && len(call.Args) > 0 {
							if aid, ok := ast.Unparen(call.Args[0]).(*ast.Ident); ok && info.ObjectOf(aid) == ob {
								continue
							}
						}
						why = spareCapacity(p, fd, rhs, depth+1, seen)
					}
				}
			case *ast.ValueSpec:
				for i, nm := range st.Names {
					if info.Defs[nm] == ob && i < len(st.Values) && why == "" {
						why = spareCapacity(p, fd, st.Values[i], depth+1, seen)
					}
				}
			}
			return true
		})
		return why
	}
	return ""
}

// sharedSlicesNotAppendedInPlace: an append whose result is NOT stored back where its first argument came from
// (opts := append(h.genOpts, x)) writes the new element into the backing array of that argument when there is room
// behind its length. When the argument is shared — a field of a value used by several goroutines, a package-level
// array or slice — two callers then write the same slot: one file is generated with another file's name, one response
// carries another response's nonce. Such an append is accepted only where the shared slice cannot have room: its
// origin (followed through locals, parameters, private fields and helpers) is not a make with a capacity beyond its
// length nor a slice expression without an explicit capacity.
func sharedSlicesNotAppendedInPlace(c *Ctx, rule string, rels ...string) {
	n := 0
	for _, rel := range rels {
		p := c.pkg(rel)
		if p == nil {
			continue
		}
		info := p.TypesInfo
		for _, fd := range allFuncDecls(p) {
			if fd.Body == nil {
				continue
			}
			storedBack := map[*ast.CallExpr]bool{}
			ast.Inspect(fd.Body, func(x ast.Node) bool {
				if as, ok := x.(*ast.AssignStmt); ok && len(as.Lhs) == len(as.Rhs) {
					for i, r := range as.Rhs {
						if call, ok := ast.Unparen(r).(*ast.CallExpr); ok && types.ExprString(call.Fun) == "append" && len(call.Args) > 0 {
							if types.ExprString(as.Lhs[i]) == types.ExprString(call.Args[0]) {
								storedBack[call] = true
							}
						}
					}
				}
				return true
			})
			// shared storage: a field reached through a receiver or parameter, a package-level variable, or a slice of one
			sharedLoc := func(e ast.Expr) string {
				root := ast.Unparen(e)
				if sl, ok := root.(*ast.SliceExpr); ok {
					root = ast.Unparen(sl.X)
				}
				switch r := root.(type) {
				case *ast.SelectorExpr:
					if sel, ok := info.Selections[r]; ok && sel.Kind() == types.FieldVal {
						if rid, ok := ast.Unparen(r.X).(*ast.Ident); ok {
							for _, prm := range append(paramObjs(info, fd), recvObj(info, fd)) {
								if prm != nil && info.ObjectOf(rid) == prm {
									return "the field " + types.ExprString(r)
								}
							}
						}
					}
				case *ast.Ident:
					if v, ok := info.ObjectOf(r).(*types.Var); ok && v.Parent() == p.Types.Scope() {
						return "the package-level variable " + r.Name
					}
				}
				return ""
			}
			ast.Inspect(fd.Body, func(x ast.Node) bool {
				call, ok := x.(*ast.CallExpr)
				if !ok || len(call.Args) < 2 {
					return true
				}
				id, ok := call.Fun.(*ast.Ident)
				if !ok || id.Name != "append" {
					return true
				}
				if _, isBuiltin := info.Uses[id].(*types.Builtin); !isBuiltin {
					return true
				}
				base := ast.Unparen(call.Args[0])
				shared := sharedLoc(base)
				if shared != "" && storedBack[call] {
					return true // h.f = append(h.f, x): the shared slice itself is updated (not this rule's matter)
				}
				// a local that stands for shared storage (attrs := table[:1]; attrs = append(attrs, x)): storing the
				// result back into the local does not help — the element went into the shared array
				if bid, isLocal := base.(*ast.Ident); isLocal && shared == "" {
					ob := info.ObjectOf(bid)
					ast.Inspect(fd.Body, func(m ast.Node) bool {
						as, ok := m.(*ast.AssignStmt)
						if !ok || len(as.Lhs) != len(as.Rhs) {
							return true
						}
						for i, l := range as.Lhs {
							if lid, ok := l.(*ast.Ident); ok && info.ObjectOf(lid) == ob && as.Pos() < call.Pos() {
								if loc := sharedLoc(as.Rhs[i]); loc != "" {
									shared = loc + " (through " + bid.Name + ")"
									base = ast.Unparen(as.Rhs[i])
								}
							}
						}
						return true
					})
				}
				// … or the base re-uses storage somebody else holds: a slice expression X[:k] over a parameter, a field, a
				// package-level value or an element of one (directly, through a local, or handed in as a parameter) —
				// the in-place filter `out := in[:0]` compacts the caller's slice, `append(cached[:0], …)` overwrites what
				// earlier readers still hold
				if shared == "" {
					if why := reusedStorage(p, fd, base, 0, map[types.Object]bool{}); why != "" {
						n++
						key := fmt.Sprintf("%s|append(%s, …)|no-reuse-of-foreign-storage", funcKey(p, fd), types.ExprString(base))
						c.viol(rule, key, c.pos(call.Pos()), fmt.Sprintf("%s appends into %s: the new elements overwrite the backing array of a slice that its owner (the caller, or readers that took it earlier) still uses", fd.Name.Name, why))
					}
					return true
				}
				n++
				why := spareCapacity(p, fd, base, 0, map[types.Object]bool{})
				// a slice of a package-level ARRAY shorter than the array always has room
				if sl, ok := base.(*ast.SliceExpr); ok && why == "" && !sl.Slice3 {
					why = types.ExprString(sl) + " keeps the capacity of what it slices"
				}
				key := fmt.Sprintf("%s|append(%s, …)|no-room-in-shared-slice", funcKey(p, fd), types.ExprString(base))
				c.check(why == "", rule, key, c.pos(call.Pos()), shared+" cannot have room behind its length: the new elements go to a fresh array",
					fmt.Sprintf("%s appends to %s without storing the result back, and that slice may have room behind its length (%s): the appended element is written into storage that concurrent callers share, so they overwrite each other's element", fd.Name.Name, shared, why))
				return true
			})
		}
	}
	c.count("aliasing_appends_on_shared_slices", n)
	if n == 0 {
		c.ok(rule, strings.Join(rels, ",")+"|no-aliasing-append", "", "no append on shared storage leaves its result elsewhere")
	}
	_ = token.NoPos
}

func recvObj(info *types.Info, fd *ast.FuncDecl) types.Object {
	if fd.Recv != nil && len(fd.Recv.List) == 1 && len(fd.Recv.List[0].Names) == 1 {
		return info.Defs[fd.Recv.List[0].Names[0]]
	}
	return nil
}

var _ = packages.NeedName

// reusedStorage: e denotes a slice expression X[:k] (without an explicit capacity) whose operand is storage the
// function does not own — a slice parameter, a field, a package-level variable, or an element of a map or slice of
// those — directly, through locals, or through a parameter (then: at some call site). "" otherwise.
func reusedStorage(p *packages.Package, fd *ast.FuncDecl, e ast.Expr, depth int, seen map[types.Object]bool) string {
	info := p.TypesInfo
	if depth > 4 || e == nil {
		return ""
	}
	foreign := func(x ast.Expr) string {
		x = ast.Unparen(x)
		for {
			switch r := x.(type) {
			case *ast.IndexExpr:
				x = ast.Unparen(r.X)
				continue
			case *ast.StarExpr:
				x = ast.Unparen(r.X)
				continue
			}
			break
		}
		switch r := x.(type) {
		case *ast.SelectorExpr:
			if sel, ok := info.Selections[r]; ok && sel.Kind() == types.FieldVal {
				return "the field " + types.ExprString(r)
			}
		case *ast.Ident:
			ob := info.ObjectOf(r)
			if v, ok := ob.(*types.Var); ok {
				if v.Parent() == p.Types.Scope() {
					return "the package-level variable " + r.Name
				}
				for _, prm := range paramObjs(info, fd) {
					if prm == ob {
						return "the parameter " + r.Name
					}
				}
			}
		}
		return ""
	}
	switch x := ast.Unparen(e).(type) {
	case *ast.SliceExpr:
		if x.Slice3 {
			return ""
		}
		if what := foreign(x.X); what != "" {
			return types.ExprString(x) + ", a re-slice of " + what
		}
		return reusedStorage(p, fd, x.X, depth+1, seen)
	case *ast.Ident:
		ob := info.ObjectOf(x)
		if ob == nil || seen[ob] {
			return ""
		}
		seen[ob] = true
		for i, prm := range paramObjs(info, fd) {
			if prm != ob {
				continue
			}
			fobj := info.Defs[fd.Name]
			for _, cfd := range allFuncDecls(p) {
				if cfd.Body == nil {
					continue
				}
				why := ""
				ast.Inspect(cfd.Body, func(n ast.Node) bool {
					if call, ok := n.(*ast.CallExpr); ok && i < len(call.Args) && why == "" {
						if fn := calleeOf(info, call); fn != nil && types.Object(fn) == fobj {
							if _, isSlice := ast.Unparen(call.Args[i]).(*ast.SliceExpr); isSlice {
								why = reusedStorage(p, cfd, call.Args[i], depth+1, seen)
							}
						}
					}
					return true
				})
				if why != "" {
					return why
				}
			}
			return ""
		}
		why := ""
		ast.Inspect(fd.Body, func(n ast.Node) bool {
			as, ok := n.(*ast.AssignStmt)
			if !ok || len(as.Lhs) != len(as.Rhs) {
				return true
			}
			for i, l := range as.Lhs {
				if lid, ok := l.(*ast.Ident); ok && info.ObjectOf(lid) == ob && why == "" {
					if _, isSlice := ast.Unparen(as.Rhs[i]).(*ast.SliceExpr); isSlice {
						why = reusedStorage(p, fd, as.Rhs[i], depth+1, seen)
					}
				}
			}
			return true
		})
		return why
	}
	return ""
}
