#!/bin/bash
# usage: benign_regress.sh [id-prefix] — applies every kept behaviour-preserving refactoring (benign/<id>/patch.diff, written
# by independent sub-agents who saw only a property's text) to a scratch worktree of /repo at the commit it was written on and runs ALL
# checks on it: any VIOLATED / UNDECIDED line is a false alarm.
set -u
cd /verif
WT=/tmp/benign_wt
export GOFLAGS=-mod=mod GOPROXY=off GOSUMDB=off GOTOOLCHAIN=local; unset GOWORK
BIN=${TEMPLVET:-/verif/bin/templvet}
git -C /repo worktree remove --force $WT 2>/dev/null
git -C /repo worktree add -q --detach $WT ${BENIGN_BASE:-b06834a} || exit 2
mkdir -p /tmp/benign_verif; cp /verif/known_findings.json /tmp/benign_verif/
n=0; bad=0; nopen=0
for d in benign/${1:-}*${BENIGN_SUFFIX:-}*/; do
  id=$(basename $d)
  git -C $WT checkout -q -- . ; git -C $WT clean -qfd
  if ! git -C $WT apply /verif/$d/patch.diff 2>/dev/null; then echo "SKIP $id: patch does not apply"; continue; fi
  n=$((n+1))
  $BIN -repo $WT -verif /tmp/benign_verif -property all -tier ${BENIGN_TIER:-quick} > /tmp/benign_out.txt 2>&1
  r=$(grep -cE "^(VIOLATED|UNDECIDED)" /tmp/benign_out.txt)
  if [ "$r" -eq 0 ] && grep -q "tier=" /tmp/benign_out.txt; then echo "ok    $id"; elif grep -q "^$id " /verif/benign/OPEN.txt 2>/dev/null; then nopen=$((nopen+1)); echo "OPEN  $id: $r reports; first: $(grep -m1 -E '^(VIOLATED|UNDECIDED)' /tmp/benign_out.txt | cut -c1-160)"; else bad=$((bad+1)); echo "ALARM $id: $r reports; first: $(grep -m1 -E '^(VIOLATED|UNDECIDED)' /tmp/benign_out.txt | cut -c1-200)"; [ "$r" -eq 0 ] && tail -3 /tmp/benign_out.txt; fi
done
git -C /repo worktree remove --force $WT
rm -rf /tmp/benign_verif /tmp/benign_out.txt
echo "$n refactorings, $bad with false alarms, $nopen open (listed in benign/OPEN.txt)"
