#!/usr/bin/env python3
"""keep_seed.py <seed-id> <property> <src dir> <caught-by rule or 'MISSED'> <needs...>  — copies a confirmed seeded change into /verif/seeded/<id>/"""
import sys, os, shutil, json, glob
sid, prop, src, caught = sys.argv[1:5]
needs = sys.argv[5]
ran = sys.argv[6] if len(sys.argv) > 6 else ""
d = f"/verif/seeded/{sid}"
os.makedirs(d, exist_ok=True)
shutil.copy(os.path.join(src, "patch.diff"), d)
for f in glob.glob(os.path.join(src, "*_test.go")) + glob.glob(os.path.join(src, "*.go")) + glob.glob(os.path.join(src, "notes.md")) + glob.glob(os.path.join(src, "*.templ")):
    # demo files are kept with a .txt suffix so that they are never compiled as part of /verif
    dst = os.path.join(d, os.path.basename(f) + (".txt" if f.endswith(".go") else ""))
    shutil.copy(f, dst)
# a demonstration that is a scratch module: keep the tree, with .go / go.mod / go.sum renamed so nothing under /verif builds it
demo = os.path.join(src, "demo")
if os.path.isdir(demo):
    for root, dirs, files in os.walk(demo):
        for fn in files:
            rel = os.path.relpath(os.path.join(root, fn), src)
            if os.path.getsize(os.path.join(root, fn)) > 300000:
                continue
            dst = os.path.join(d, rel + (".txt" if fn.endswith(".go") or fn in ("go.mod", "go.sum") else ""))
            os.makedirs(os.path.dirname(dst), exist_ok=True)
            shutil.copy(os.path.join(root, fn), dst)
import subprocess
base = os.environ.get("SEED_BASE") or subprocess.run(["git","-C","/repo","rev-parse","--short","HEAD"],capture_output=True,text=True).stdout.strip()
json.dump({"id": sid, "base_commit": base, "breaks_property": prop, "needs_to_manifest": needs, "caught_by": caught,
           "what_i_ran": ran or "confirm_seed.sh (scratch worktree /tmp/confirm_wt: git apply; go build ./...; go test ./... same as baseline; demo fails with the change, passes without) and seeded_eval.sh (git -C /repo apply; templvet quick+thorough; git -C /repo checkout -- .)",
           "source": "written by an independent sub-agent that saw only the property text and its own worktree"}, open(os.path.join(d, "meta.json"), "w"), indent=1)
print("kept", d)
